package main

// GenPrio.v: getPriority, the unary operand limit, the right-associative operators, the unary operator set,
// isReturnOrBlockEnd and the "return is followed by nothing" set, from parser/parse_exp.go and parse_block.go.

import (
	"fmt"
	"go/ast"
	"go/token"
	"strings"
)

const parseExpGo = "luahelper-lsp/langserver/check/compiler/parser/parse_exp.go"
const parseBlockGo = "luahelper-lsp/langserver/check/compiler/parser/parse_block.go"

func caseKinds(cc *ast.CaseClause, alias map[string]string) ([]string, error) {
	out := []string{}
	for _, e := range cc.List {
		n, ok := selName(e)
		if !ok {
			return nil, fmt.Errorf("case label not a constant")
		}
		out = append(out, resolveKind(n, alias))
	}
	return out, nil
}

// eqChain collects X for `v == pkg.X || v == pkg.Y ...`
func eqChain(e ast.Expr, alias map[string]string, out *[]string) bool {
	be, ok := e.(*ast.BinaryExpr)
	if !ok {
		return false
	}
	if be.Op == token.LOR {
		return eqChain(be.X, alias, out) && eqChain(be.Y, alias, out)
	}
	if be.Op == token.EQL {
		n, ok := selName(be.Y)
		if !ok {
			return false
		}
		*out = append(*out, resolveKind(n, alias))
		return true
	}
	return false
}

func kindList(l []string) string { return "[" + strings.Join(l, "; ") + "]" }

func init() {
	registerGen("prio", func(repo string) (string, string, error) {
		_, alias, _, err := tokenConsts(repo)
		if err != nil {
			return "GenPrio.v", "", err
		}
		_, f, err := parseFile(repo, parseExpGo)
		if err != nil {
			return "GenPrio.v", "", err
		}
		gp := findFunc(f, "getPriority")
		if gp == nil {
			return "GenPrio.v", "", fmt.Errorf("getPriority not found")
		}
		var prio []string
		found := false
		for _, st := range gp.Body.List {
			sw, ok := st.(*ast.SwitchStmt)
			if !ok {
				continue
			}
			found = true
			for _, c := range sw.Body.List {
				cc := c.(*ast.CaseClause)
				ks, err := caseKinds(cc, alias)
				if err != nil {
					return "GenPrio.v", "", err
				}
				if len(cc.Body) != 1 {
					return "GenPrio.v", "", fmt.Errorf("getPriority case body shape")
				}
				ret, ok := cc.Body[0].(*ast.ReturnStmt)
				if !ok || len(ret.Results) != 1 {
					return "GenPrio.v", "", fmt.Errorf("getPriority case body shape")
				}
				lit, ok := ret.Results[0].(*ast.BasicLit)
				if !ok {
					return "GenPrio.v", "", fmt.Errorf("getPriority returns a non-literal")
				}
				for _, k := range ks {
					prio = append(prio, fmt.Sprintf("(%s, %s)", k, lit.Value))
				}
			}
		}
		if !found {
			return "GenPrio.v", "", fmt.Errorf("getPriority switch not found")
		}
		// parseSubExp: unary operator set, unary limit, right-assoc set
		ps := findFunc(f, "parseSubExp")
		if ps == nil {
			return "GenPrio.v", "", fmt.Errorf("parseSubExp not found")
		}
		var unops, rassoc []string
		unaryLimit := ""
		ast.Inspect(ps.Body, func(n ast.Node) bool {
			ifs, ok := n.(*ast.IfStmt)
			if !ok {
				return true
			}
			var ks []string
			if !eqChain(ifs.Cond, alias, &ks) {
				return true
			}
			// the unary branch contains a recursive call parseSubExp(<literal>)
			isUnary := false
			ast.Inspect(ifs.Body, func(m ast.Node) bool {
				if ce, ok := m.(*ast.CallExpr); ok {
					if n, ok := selName(ce.Fun); ok && n == "parseSubExp" && len(ce.Args) == 1 {
						if lit, ok := ce.Args[0].(*ast.BasicLit); ok {
							unaryLimit = lit.Value
							isUnary = true
						}
					}
				}
				return true
			})
			if isUnary {
				unops = ks
			} else {
				// `nowPriority--` branch
				for _, s := range ifs.Body.List {
					if inc, ok := s.(*ast.IncDecStmt); ok && inc.Tok == token.DEC {
						rassoc = ks
					}
				}
			}
			return true
		})
		if len(unops) == 0 || len(rassoc) == 0 || unaryLimit == "" {
			return "GenPrio.v", "", fmt.Errorf("parseSubExp shape changed (unops=%v rassoc=%v limit=%q)", unops, rassoc, unaryLimit)
		}
		_, fb, err := parseFile(repo, parseBlockGo)
		if err != nil {
			return "GenPrio.v", "", err
		}
		var blockEnd, retEnd []string
		if fn := findFunc(fb, "isReturnOrBlockEnd"); fn != nil {
			ast.Inspect(fn.Body, func(n ast.Node) bool {
				if cc, ok := n.(*ast.CaseClause); ok && len(cc.List) > 0 {
					blockEnd, _ = caseKinds(cc, alias)
				}
				return true
			})
		}
		if fn := findFunc(fb, "parseRetExps"); fn != nil {
			ast.Inspect(fn.Body, func(n ast.Node) bool {
				if cc, ok := n.(*ast.CaseClause); ok && len(cc.List) > 1 && retEnd == nil {
					retEnd, _ = caseKinds(cc, alias)
				}
				return true
			})
		}
		if len(blockEnd) == 0 || len(retEnd) == 0 {
			return "GenPrio.v", "", fmt.Errorf("parse_block.go shape changed")
		}
		var b strings.Builder
		b.WriteString(header(parseExpGo + ", " + parseBlockGo))
		b.WriteString("Definition gen_prio : list (tkind * nat) :=\n  [" + strings.Join(prio, "; ") + "].\n")
		b.WriteString("Definition gen_unary_limit : nat := " + unaryLimit + ".\n")
		b.WriteString("Definition gen_unops : list tkind := " + kindList(unops) + ".\n")
		b.WriteString("Definition gen_right_assoc : list tkind := " + kindList(rassoc) + ".\n")
		b.WriteString("Definition gen_block_end : list tkind := " + kindList(blockEnd) + ".\n")
		b.WriteString("Definition gen_ret_end : list tkind := " + kindList(retEnd) + ".\n")
		return "GenPrio.v", b.String(), nil
	})
}
