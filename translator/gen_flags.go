// GenFlags.v: the positional client flag lists and what surrounds them (C17).
//   init_flags      initialize.go   getCheckFlagList: ordered field names of the []bool literal
//   change_flags    other_request.go getWarnCheckList: the same for the settings-change route
//   init_json_tags  InitializationOptions: (field, json tag) of every bool field
//   warn_json_tags  WarnParams: (field, json tag)
//   special_types   global_conf.go IsSpecialCheck: the constants of errTypeList
//   flag_loop       global_conf.go handleNotJSONCheckFlag: bounds of the `for i := A; i < B; i++` loops
//   documented_types luahelper-vscode/package.nls.json: switch name -> the "[Warn Type:n]" of its description
//   must_compile_user_text  global_conf.go: is regexp.MustCompile still called on anything but a string literal?
package main

import (
	"encoding/json"
	"fmt"
	"go/ast"
	"go/parser"
	"go/token"
	"io/ioutil"
	"path/filepath"
	"regexp"
	"sort"
	"strings"
)

func c17ParseGo(path string) (*ast.File, error) {
	return parser.ParseFile(token.NewFileSet(), path, nil, 0)
}

func c17FindFunc(f *ast.File, name string) *ast.FuncDecl {
	for _, d := range f.Decls {
		if fd, ok := d.(*ast.FuncDecl); ok && fd.Name.Name == name {
			return fd
		}
	}
	return nil
}

// the single `x = []bool{recv.A, recv.B, ...}` of a flag-list function
func c17FlagList(f *ast.File, fn, recv string) ([]string, error) {
	fd := c17FindFunc(f, fn)
	if fd == nil {
		return nil, fmt.Errorf("function %s not found", fn)
	}
	var lits []*ast.CompositeLit
	ast.Inspect(fd.Body, func(n ast.Node) bool {
		if cl, ok := n.(*ast.CompositeLit); ok {
			if at, ok := cl.Type.(*ast.ArrayType); ok && at.Len == nil {
				if id, ok := at.Elt.(*ast.Ident); ok && id.Name == "bool" {
					lits = append(lits, cl)
				}
			}
		}
		return true
	})
	if len(lits) != 1 {
		return nil, fmt.Errorf("%s: expected exactly one []bool literal, found %d", fn, len(lits))
	}
	// nothing else may touch the list: the body must be `x = lit` (+ return)
	for _, st := range fd.Body.List {
		switch s := st.(type) {
		case *ast.AssignStmt:
			if len(s.Rhs) != 1 || s.Rhs[0] != ast.Expr(lits[0]) {
				return nil, fmt.Errorf("%s: unexpected assignment, shape not recognised", fn)
			}
		case *ast.ReturnStmt:
		default:
			return nil, fmt.Errorf("%s: unexpected statement %T, shape not recognised", fn, st)
		}
	}
	var names []string
	for _, e := range lits[0].Elts {
		se, ok := e.(*ast.SelectorExpr)
		if !ok {
			return nil, fmt.Errorf("%s: list element is not %s.<Field>", fn, recv)
		}
		id, ok := se.X.(*ast.Ident)
		if !ok || id.Name != recv {
			return nil, fmt.Errorf("%s: list element is not %s.<Field>", fn, recv)
		}
		names = append(names, se.Sel.Name)
	}
	return names, nil
}

func c17BoolTags(f *ast.File, typ string) ([][2]string, error) {
	var out [][2]string
	found := false
	ast.Inspect(f, func(n ast.Node) bool {
		ts, ok := n.(*ast.TypeSpec)
		if !ok || ts.Name.Name != typ {
			return true
		}
		st, ok := ts.Type.(*ast.StructType)
		if !ok {
			return true
		}
		found = true
		for _, fl := range st.Fields.List {
			id, ok := fl.Type.(*ast.Ident)
			if !ok || id.Name != "bool" || fl.Tag == nil {
				continue
			}
			m := regexp.MustCompile(`json:"([^",]*)`).FindStringSubmatch(fl.Tag.Value)
			tag := ""
			if m != nil {
				tag = m[1]
			}
			for _, nm := range fl.Names {
				out = append(out, [2]string{nm.Name, tag})
			}
		}
		return false
	})
	if !found {
		return nil, fmt.Errorf("struct %s not found", typ)
	}
	return out, nil
}

func c17CoqStrings(l []string) string {
	q := make([]string, len(l))
	for i, s := range l {
		q[i] = "\"" + s + "\""
	}
	return "[" + strings.Join(q, "; ") + "]"
}

func init() {
	registerGen("flags", func(repo string) (string, string, error) {
		const out = "GenFlags.v"
		ls := filepath.Join(repo, "luahelper-lsp/langserver")
		fi, err := c17ParseGo(filepath.Join(ls, "initialize.go"))
		if err != nil {
			return out, "", err
		}
		fo, err := c17ParseGo(filepath.Join(ls, "other_request.go"))
		if err != nil {
			return out, "", err
		}
		fg, err := c17ParseGo(filepath.Join(ls, "check/common/global_conf.go"))
		if err != nil {
			return out, "", err
		}
		initFlags, err := c17FlagList(fi, "getCheckFlagList", "initOptions")
		if err != nil {
			return out, "", err
		}
		changeFlags, err := c17FlagList(fo, "getWarnCheckList", "warnParam")
		if err != nil {
			return out, "", err
		}
		initTags, err := c17BoolTags(fi, "InitializationOptions")
		if err != nil {
			return out, "", err
		}
		warnTags, err := c17BoolTags(fo, "WarnParams")
		if err != nil {
			return out, "", err
		}
		// IsSpecialCheck: errTypeList := []CheckErrorType{...}
		sp := c17FindFunc(fg, "IsSpecialCheck")
		if sp == nil {
			return out, "", fmt.Errorf("IsSpecialCheck not found")
		}
		var special []string
		nl := 0
		ast.Inspect(sp.Body, func(n ast.Node) bool {
			cl, ok := n.(*ast.CompositeLit)
			if !ok {
				return true
			}
			at, ok := cl.Type.(*ast.ArrayType)
			if !ok {
				return true
			}
			if id, ok := at.Elt.(*ast.Ident); !ok || id.Name != "CheckErrorType" {
				return true
			}
			nl++
			for _, e := range cl.Elts {
				if id, ok := e.(*ast.Ident); ok {
					special = append(special, id.Name)
				} else {
					special = append(special, "?")
				}
			}
			return true
		})
		if nl != 1 || len(special) == 0 {
			return out, "", fmt.Errorf("IsSpecialCheck: expected one []CheckErrorType literal, found %d", nl)
		}
		for _, s := range special {
			if s == "?" {
				return out, "", fmt.Errorf("IsSpecialCheck: errTypeList element is not a constant name")
			}
		}
		// handleNotJSONCheckFlag: every `for i := A; i < B; i++`
		hf := c17FindFunc(fg, "handleNotJSONCheckFlag")
		if hf == nil {
			return out, "", fmt.Errorf("handleNotJSONCheckFlag not found")
		}
		var loops [][2]string
		bad := ""
		ast.Inspect(hf.Body, func(n ast.Node) bool {
			fs, ok := n.(*ast.ForStmt)
			if !ok {
				return true
			}
			as, ok1 := fs.Init.(*ast.AssignStmt)
			be, ok2 := fs.Cond.(*ast.BinaryExpr)
			_, ok3 := fs.Post.(*ast.IncDecStmt)
			if !ok1 || !ok2 || !ok3 || len(as.Rhs) != 1 || be.Op != token.LSS {
				bad = "for loop of unexpected shape"
				return true
			}
			a, oka := as.Rhs[0].(*ast.Ident)
			b, okb := be.Y.(*ast.Ident)
			if !oka || !okb {
				bad = "for loop bounds are not constant names"
				return true
			}
			loops = append(loops, [2]string{a.Name, b.Name})
			return true
		})
		if bad != "" || len(loops) != 2 {
			return out, "", fmt.Errorf("handleNotJSONCheckFlag: %s (%d counting loops, expected 2)", bad, len(loops))
		}
		// regexp.MustCompile(<not a literal>) anywhere in global_conf.go; regexp.Compile / MustCompile must occur at all
		mustUser, compileCalls := 0, 0
		ast.Inspect(fg, func(n ast.Node) bool {
			ce, ok := n.(*ast.CallExpr)
			if !ok {
				return true
			}
			se, ok := ce.Fun.(*ast.SelectorExpr)
			if !ok {
				return true
			}
			if id, ok := se.X.(*ast.Ident); !ok || id.Name != "regexp" {
				return true
			}
			if se.Sel.Name == "MustCompile" || se.Sel.Name == "Compile" {
				compileCalls++
			}
			if se.Sel.Name == "MustCompile" && len(ce.Args) == 1 {
				if lit, ok := ce.Args[0].(*ast.BasicLit); !ok || lit.Kind != token.STRING {
					mustUser++
				}
			}
			return true
		})
		if compileCalls == 0 {
			return out, "", fmt.Errorf("global_conf.go: no regexp.Compile / regexp.MustCompile call at all: shape not recognised")
		}
		// does IntialGlobalVar (run once at start-up, before any settings are seen) allocate g.IgnoreVarMap?
		varMapAtInit := false
		ig := c17FindFunc(fg, "IntialGlobalVar")
		if ig == nil {
			return out, "", fmt.Errorf("global_conf.go: func IntialGlobalVar not found")
		}
		ast.Inspect(ig, func(n ast.Node) bool {
			as, ok := n.(*ast.AssignStmt)
			if !ok || len(as.Lhs) != 1 || len(as.Rhs) != 1 {
				return true
			}
			if se, ok := as.Lhs[0].(*ast.SelectorExpr); ok && se.Sel.Name == "IgnoreVarMap" {
				if _, ok := as.Rhs[0].(*ast.CompositeLit); ok {
					varMapAtInit = true
				}
			}
			return true
		})
		// documentation of the switches
		nls, err := ioutil.ReadFile(filepath.Join(repo, "luahelper-vscode/package.nls.json"))
		if err != nil {
			return out, "", err
		}
		var nm map[string]string
		if err := json.Unmarshal(nls, &nm); err != nil {
			return out, "", err
		}
		type doc struct {
			name string
			ty   string
		}
		var docs []doc
		re := regexp.MustCompile(`^\[Warn Type:(\d+)\]`)
		for k, v := range nm {
			if !strings.HasPrefix(k, "luahelper.Warn.") {
				continue
			}
			name := strings.TrimPrefix(k, "luahelper.Warn.")
			if name == "AllEnable" {
				docs = append(docs, doc{name, "0"})
				continue
			}
			m := re.FindStringSubmatch(v)
			if m == nil {
				return out, "", fmt.Errorf("package.nls.json: %s has no [Warn Type:n] prefix", k)
			}
			docs = append(docs, doc{name, m[1]})
		}
		sort.Slice(docs, func(i, j int) bool { return docs[i].name < docs[j].name })
		if len(docs) == 0 {
			return out, "", fmt.Errorf("package.nls.json: no luahelper.Warn.* entries")
		}

		var b strings.Builder
		b.WriteString("(* GENERATED by /verif/translator (gen_flags.go) from initialize.go, other_request.go, global_conf.go,\n   luahelper-vscode/package.nls.json - do not edit *)\n")
		b.WriteString("From Coq Require Import List NArith String.\nImport ListNotations.\nLocal Open Scope string_scope.\n\n")
		fmt.Fprintf(&b, "Definition init_flags : list string :=\n  %s.\n\n", c17CoqStrings(initFlags))
		fmt.Fprintf(&b, "Definition change_flags : list string :=\n  %s.\n\n", c17CoqStrings(changeFlags))
		pairs := func(l [][2]string) string {
			q := make([]string, len(l))
			for i, p := range l {
				q[i] = fmt.Sprintf("(\"%s\", \"%s\")", p[0], p[1])
			}
			return "[" + strings.Join(q, ";\n   ") + "]"
		}
		fmt.Fprintf(&b, "Definition init_json_tags : list (string * string) :=\n  %s.\n\n", pairs(initTags))
		fmt.Fprintf(&b, "Definition warn_json_tags : list (string * string) :=\n  %s.\n\n", pairs(warnTags))
		fmt.Fprintf(&b, "Definition special_types : list string :=\n  %s.\n\n", c17CoqStrings(special))
		fmt.Fprintf(&b, "Definition flag_loops : list (string * string) :=\n  %s.\n\n", pairs(loops))
		fmt.Fprintf(&b, "(* %d call(s) of regexp.MustCompile on non-literal text in global_conf.go *)\nDefinition must_compile_user_text : bool := %v.\n\n", mustUser, mustUser > 0)
		fmt.Fprintf(&b, "(* IntialGlobalVar allocates IgnoreVarMap (before any settings are read) *)\nDefinition var_map_allocated_at_init : bool := %v.\n\n", varMapAtInit)
		dq := make([]string, len(docs))
		for i, d := range docs {
			dq[i] = fmt.Sprintf("(\"%s\", %s%%N)", d.name, d.ty)
		}
		fmt.Fprintf(&b, "Definition documented_types : list (string * N) :=\n  [%s].\n", strings.Join(dq, ";\n   "))
		return out, b.String(), nil
	})
}
