// GenFlags.v: the positional client flag lists and what surrounds them (C17).
//   init_flags      initialize.go   getCheckFlagList: ordered field names of the []bool literal
//   change_flags    other_request.go getWarnCheckList: the same for the settings-change route
//   init_json_tags  InitializationOptions: (field, json tag) of every bool field
//   warn_json_tags  WarnParams: (field, json tag)
//   special_types   global_conf.go IsSpecialCheck: the constants of errTypeList
//   flag_loop       global_conf.go handleNotJSONCheckFlag: bounds of the `for i := A; i < B; i++` loops
//   documented_types luahelper-vscode/package.nls.json: switch name -> the "[Warn Type:n]" of its description
//   must_compile_user_text  global_conf.go: is regexp.MustCompile still called on anything but a string literal?
//   client_opens_types  global_conf.go handleNotJSONCheckFlag: does a client switch that is on reach OpenErrorTypeMap?
//   file_rules_merged   global_conf.go ReadConfig: is IgnoreFileErrTypesMap read before an entry is (re)assigned?
//   ignore_guards       check/analysis/*.go: every use of IsGlobalIgnoreErrType: (function, (kind, types)); kind "return" =
//                       `if ignored(A) && ignored(B) { return }`, "enter" = `if ... && !ignored(A) { ... }`
//   open_lookups        check/analysis/*.go: every `if _, ok := ...OpenErrorTypeMap[T]; !ok { return }`: (function, T)
//   analysis_choke_calls check/analysis/*.go: every direct call of IsIgnoreErrorFile: (function, (file argument, type))
//   ignore_site_calls   dir_manager.go getAllFile, global_conf.go IsIgnoreCompleteFile (+ isIgnoreRelFile if it exists):
//                       which of isIgnoreFile / isIgnoreFloder / isIgnoreRelFile / IsIgnoreCompleteFile each one calls,
//                       in source order (the two places where the ignore-for-analysis rules decide)
//   settings_clear_steps other_request.go clearLspServer (run by every settings change that takes effect): its statements in
//                       source order, "clear:<map>" = `for f := range l.<map> { l.ClearOneFileDiagnostic(ctx, f) }` (also with the
//                       body wrapped in `if _, ok := l.fileErrorMap[f]; !ok { ... }`: skip what the first loop cleared),
//                       "reset:<map>" = `l.<map> = <literal>`, "?" = anything else
package main

import (
	"encoding/json"
	"fmt"
	"go/ast"
	"go/parser"
	"go/token"
	"go/types"
	"io/ioutil"
	"path/filepath"
	"regexp"
	"sort"
	"strings"
)

func c17ParseGo(path string) (*ast.File, error) {
	return parser.ParseFile(token.NewFileSet(), path, nil, 0)
}

func c17FindFunc(f *ast.File, name string) *ast.FuncDecl {
	for _, d := range f.Decls {
		if fd, ok := d.(*ast.FuncDecl); ok && fd.Name.Name == name {
			return fd
		}
	}
	return nil
}

// the single `x = []bool{recv.A, recv.B, ...}` of a flag-list function
func c17FlagList(f *ast.File, fn, recv string) ([]string, error) {
	fd := c17FindFunc(f, fn)
	if fd == nil {
		return nil, fmt.Errorf("function %s not found", fn)
	}
	var lits []*ast.CompositeLit
	ast.Inspect(fd.Body, func(n ast.Node) bool {
		if cl, ok := n.(*ast.CompositeLit); ok {
			if at, ok := cl.Type.(*ast.ArrayType); ok && at.Len == nil {
				if id, ok := at.Elt.(*ast.Ident); ok && id.Name == "bool" {
					lits = append(lits, cl)
				}
			}
		}
		return true
	})
	if len(lits) != 1 {
		return nil, fmt.Errorf("%s: expected exactly one []bool literal, found %d", fn, len(lits))
	}
	// nothing else may touch the list: the body must be `x = lit` (+ return)
	for _, st := range fd.Body.List {
		switch s := st.(type) {
		case *ast.AssignStmt:
			if len(s.Rhs) != 1 || s.Rhs[0] != ast.Expr(lits[0]) {
				return nil, fmt.Errorf("%s: unexpected assignment, shape not recognised", fn)
			}
		case *ast.ReturnStmt:
		default:
			return nil, fmt.Errorf("%s: unexpected statement %T, shape not recognised", fn, st)
		}
	}
	var names []string
	for _, e := range lits[0].Elts {
		se, ok := e.(*ast.SelectorExpr)
		if !ok {
			return nil, fmt.Errorf("%s: list element is not %s.<Field>", fn, recv)
		}
		id, ok := se.X.(*ast.Ident)
		if !ok || id.Name != recv {
			return nil, fmt.Errorf("%s: list element is not %s.<Field>", fn, recv)
		}
		names = append(names, se.Sel.Name)
	}
	return names, nil
}

func c17BoolTags(f *ast.File, typ string) ([][2]string, error) {
	var out [][2]string
	found := false
	ast.Inspect(f, func(n ast.Node) bool {
		ts, ok := n.(*ast.TypeSpec)
		if !ok || ts.Name.Name != typ {
			return true
		}
		st, ok := ts.Type.(*ast.StructType)
		if !ok {
			return true
		}
		found = true
		for _, fl := range st.Fields.List {
			id, ok := fl.Type.(*ast.Ident)
			if !ok || id.Name != "bool" || fl.Tag == nil {
				continue
			}
			m := regexp.MustCompile(`json:"([^",]*)`).FindStringSubmatch(fl.Tag.Value)
			tag := ""
			if m != nil {
				tag = m[1]
			}
			for _, nm := range fl.Names {
				out = append(out, [2]string{nm.Name, tag})
			}
		}
		return false
	})
	if !found {
		return nil, fmt.Errorf("struct %s not found", typ)
	}
	return out, nil
}

func c17CoqStrings(l []string) string {
	q := make([]string, len(l))
	for i, s := range l {
		q[i] = "\"" + s + "\""
	}
	return "[" + strings.Join(q, "; ") + "]"
}


// ---- the uses of the configuration inside check/analysis (C17 coupled_type / dead_flag) ----

type c17Guard struct {
	fn, kind string
	types    []string
}

// `<anything>.IsGlobalIgnoreErrType(common.X)` -> X
func c17IgnoreCall(e ast.Expr) (string, bool) {
	ce, ok := e.(*ast.CallExpr)
	if !ok || len(ce.Args) != 1 {
		return "", false
	}
	se, ok := ce.Fun.(*ast.SelectorExpr)
	if !ok || se.Sel.Name != "IsGlobalIgnoreErrType" {
		return "", false
	}
	name, ok := selName(ce.Args[0])
	if !ok {
		return "?", true
	}
	return name, true
}

func c17Conjuncts(e ast.Expr) []ast.Expr {
	if pe, ok := e.(*ast.ParenExpr); ok {
		return c17Conjuncts(pe.X)
	}
	if be, ok := e.(*ast.BinaryExpr); ok && be.Op == token.LAND {
		return append(c17Conjuncts(be.X), c17Conjuncts(be.Y)...)
	}
	return []ast.Expr{e}
}

func c17LoneReturn(b *ast.BlockStmt) bool {
	if b == nil || len(b.List) != 1 {
		return false
	}
	rs, ok := b.List[0].(*ast.ReturnStmt)
	return ok && len(rs.Results) == 0
}

func c17ContainsIgnoreCall(n ast.Node) int {
	k := 0
	ast.Inspect(n, func(x ast.Node) bool {
		if e, ok := x.(ast.Expr); ok {
			if _, ok := c17IgnoreCall(e); ok {
				k++
			}
		}
		return true
	})
	return k
}

func c17ScanAnalysis(dir string) (guards []c17Guard, opens [][2]string, chokes [][3]string, err error) {
	files, err := filepath.Glob(filepath.Join(dir, "*.go"))
	if err != nil {
		return
	}
	sort.Strings(files)
	nfiles := 0
	for _, path := range files {
		base := filepath.Base(path)
		if strings.HasSuffix(base, "_test.go") || strings.HasPrefix(base, "verif_hooks") {
			continue
		}
		var f *ast.File
		f, err = c17ParseGo(path)
		if err != nil {
			return
		}
		nfiles++
		for _, d := range f.Decls {
			fd, ok := d.(*ast.FuncDecl)
			if !ok || fd.Body == nil {
				continue
			}
			total := c17ContainsIgnoreCall(fd.Body)
			covered := 0
			ast.Inspect(fd.Body, func(n ast.Node) bool {
				switch x := n.(type) {
				case *ast.IfStmt:
					inCond := c17ContainsIgnoreCall(x.Cond)
					if inCond > 0 {
						var pos, neg []string
						odd := false
						for _, c := range c17Conjuncts(x.Cond) {
							if t, ok := c17IgnoreCall(c); ok {
								pos = append(pos, t)
							} else if ue, ok := c.(*ast.UnaryExpr); ok && ue.Op == token.NOT {
								if t, ok := c17IgnoreCall(ue.X); ok {
									neg = append(neg, t)
								} else if c17ContainsIgnoreCall(c) > 0 {
									odd = true
								}
							} else if c17ContainsIgnoreCall(c) > 0 {
								odd = true
							}
						}
						covered += inCond
						switch {
						case !odd && len(neg) == 0 && len(pos) == len(c17Conjuncts(x.Cond)) && x.Init == nil && x.Else == nil && c17LoneReturn(x.Body):
							guards = append(guards, c17Guard{fd.Name.Name, "return", pos})
						case !odd && len(pos) == 0 && len(neg) > 0:
							guards = append(guards, c17Guard{fd.Name.Name, "enter", neg})
						default:
							guards = append(guards, c17Guard{fd.Name.Name, "other", append(pos, neg...)})
						}
					}
					// `if _, ok := <...>.OpenErrorTypeMap[common.T]; !ok { return }`
					if as, ok := x.Init.(*ast.AssignStmt); ok && len(as.Rhs) == 1 {
						if ie, ok := as.Rhs[0].(*ast.IndexExpr); ok {
							if se, ok := ie.X.(*ast.SelectorExpr); ok && se.Sel.Name == "OpenErrorTypeMap" {
								t, okT := selName(ie.Index)
								ue, okU := x.Cond.(*ast.UnaryExpr)
								if !okT || !okU || ue.Op != token.NOT || x.Else != nil || !c17LoneReturn(x.Body) {
									t = "?"
								}
								opens = append(opens, [2]string{fd.Name.Name, t})
							}
						}
					}
				case *ast.CallExpr:
					if se, ok := x.Fun.(*ast.SelectorExpr); ok && se.Sel.Name == "IsIgnoreErrorFile" && len(x.Args) == 2 {
						t, ok := selName(x.Args[1])
						if !ok {
							t = "?"
						}
						chokes = append(chokes, [3]string{fd.Name.Name, types.ExprString(x.Args[0]), t})
					}
				}
				return true
			})
			if covered != total {
				guards = append(guards, c17Guard{fd.Name.Name, "other", nil})
			}
			// any other mention of OpenErrorTypeMap than the recognised look-up
			nOpen := 0
			ast.Inspect(fd.Body, func(n ast.Node) bool {
				if se, ok := n.(*ast.SelectorExpr); ok && se.Sel.Name == "OpenErrorTypeMap" {
					nOpen++
				}
				return true
			})
			if nOpen > 0 {
				// functions have unique names inside the package
				cnt := 0
				for _, o := range opens {
					if o[0] == fd.Name.Name {
						cnt++
					}
				}
				if cnt != nOpen {
					opens = append(opens, [2]string{fd.Name.Name, "?"})
				}
			}
		}
	}
	if nfiles == 0 {
		err = fmt.Errorf("%s: no Go files", dir)
	}
	return
}

// handleNotJSONCheckFlag: `<...>.OpenErrorTypeMap[<...>] = true`
func c17ClientOpens(fd *ast.FuncDecl) bool {
	found := false
	ast.Inspect(fd.Body, func(n ast.Node) bool {
		as, ok := n.(*ast.AssignStmt)
		if !ok || len(as.Lhs) != 1 || len(as.Rhs) != 1 {
			return true
		}
		ie, ok := as.Lhs[0].(*ast.IndexExpr)
		if !ok {
			return true
		}
		se, ok := ie.X.(*ast.SelectorExpr)
		if !ok || se.Sel.Name != "OpenErrorTypeMap" {
			return true
		}
		if id, ok := as.Rhs[0].(*ast.Ident); ok && id.Name == "true" {
			found = true
		}
		return true
	})
	return found
}

// ReadConfig: the IgnoreFileErrTypes loop; merged = the map is read (`v, ok := m[name]`) and not only assigned
func c17RulesMerged(fd *ast.FuncDecl) (bool, error) {
	reads, writes := 0, 0
	lhs := map[ast.Expr]bool{}
	ast.Inspect(fd.Body, func(n ast.Node) bool {
		if as, ok := n.(*ast.AssignStmt); ok {
			for _, l := range as.Lhs {
				lhs[l] = true
			}
		}
		return true
	})
	ast.Inspect(fd.Body, func(n ast.Node) bool {
		ie, ok := n.(*ast.IndexExpr)
		if !ok {
			return true
		}
		se, ok := ie.X.(*ast.SelectorExpr)
		if !ok || se.Sel.Name != "IgnoreFileErrTypesMap" {
			return true
		}
		if lhs[ast.Expr(ie)] {
			writes++
		} else {
			reads++
		}
		return true
	})
	if writes != 1 || reads > 1 {
		return false, fmt.Errorf("ReadConfig: IgnoreFileErrTypesMap is indexed %d times on the left and %d times elsewhere: shape not recognised", writes, reads)
	}
	return reads == 1, nil
}

// the calls of the ignore-for-analysis helpers inside one function, in source order
func c17IgnoreSiteCalls(fd *ast.FuncDecl) []string {
	var out []string
	ast.Inspect(fd.Body, func(n ast.Node) bool {
		ce, ok := n.(*ast.CallExpr)
		if !ok {
			return true
		}
		se, ok := ce.Fun.(*ast.SelectorExpr)
		if !ok {
			return true
		}
		switch se.Sel.Name {
		case "isIgnoreFile", "isIgnoreFloder", "isIgnoreRelFile", "IsIgnoreCompleteFile":
			out = append(out, se.Sel.Name)
		}
		return true
	})
	return out
}

// c17SettingsClear: the statements of clearLspServer, see the file header
func c17SettingsClear(fd *ast.FuncDecl) []string {
	recvField := func(e ast.Expr) (string, bool) { // l.<field>
		se, ok := e.(*ast.SelectorExpr)
		if !ok {
			return "", false
		}
		if id, ok := se.X.(*ast.Ident); !ok || id.Name != "l" {
			return "", false
		}
		return se.Sel.Name, true
	}
	isClearCall := func(st ast.Stmt, key string) bool { // l.ClearOneFileDiagnostic(ctx, key)
		es, ok := st.(*ast.ExprStmt)
		if !ok {
			return false
		}
		ce, ok := es.X.(*ast.CallExpr)
		if !ok || len(ce.Args) != 2 {
			return false
		}
		if name, ok := recvField(ce.Fun); !ok || name != "ClearOneFileDiagnostic" {
			return false
		}
		id, ok := ce.Args[1].(*ast.Ident)
		return ok && id.Name == key
	}
	var out []string
	for _, st := range fd.Body.List {
		switch s := st.(type) {
		case *ast.RangeStmt:
			m, ok := recvField(s.X)
			key, okk := s.Key.(*ast.Ident)
			if !ok || !okk || s.Value != nil || len(s.Body.List) != 1 {
				out = append(out, "?")
				continue
			}
			body := s.Body.List[0]
			if isClearCall(body, key.Name) {
				out = append(out, "clear:"+m)
				continue
			}
			// if _, ok := l.fileErrorMap[key]; !ok { l.ClearOneFileDiagnostic(ctx, key) }
			good := false
			if is, ok := body.(*ast.IfStmt); ok && is.Else == nil && len(is.Body.List) == 1 && isClearCall(is.Body.List[0], key.Name) {
				if as, ok := is.Init.(*ast.AssignStmt); ok && len(as.Lhs) == 2 && len(as.Rhs) == 1 {
					if ie, ok := as.Rhs[0].(*ast.IndexExpr); ok {
						mm, ok1 := recvField(ie.X)
						ik, ok2 := ie.Index.(*ast.Ident)
						okv, ok3 := as.Lhs[1].(*ast.Ident)
						if ue, ok4 := is.Cond.(*ast.UnaryExpr); ok1 && ok2 && ok3 && ok4 && mm == "fileErrorMap" && ik.Name == key.Name && ue.Op == token.NOT {
							if ci, ok := ue.X.(*ast.Ident); ok && ci.Name == okv.Name {
								good = true
							}
						}
					}
				}
			}
			if good {
				out = append(out, "clear:"+m)
			} else {
				out = append(out, "?")
			}
		case *ast.AssignStmt:
			if len(s.Lhs) == 1 && len(s.Rhs) == 1 {
				if m, ok := recvField(s.Lhs[0]); ok {
					if _, ok := s.Rhs[0].(*ast.CompositeLit); ok {
						out = append(out, "reset:"+m)
						continue
					}
				}
			}
			out = append(out, "?")
		default:
			out = append(out, "?")
		}
	}
	return out
}

func init() {
	registerGen("flags", func(repo string) (string, string, error) {
		const out = "GenFlags.v"
		ls := filepath.Join(repo, "luahelper-lsp/langserver")
		fi, err := c17ParseGo(filepath.Join(ls, "initialize.go"))
		if err != nil {
			return out, "", err
		}
		fo, err := c17ParseGo(filepath.Join(ls, "other_request.go"))
		if err != nil {
			return out, "", err
		}
		fg, err := c17ParseGo(filepath.Join(ls, "check/common/global_conf.go"))
		if err != nil {
			return out, "", err
		}
		initFlags, err := c17FlagList(fi, "getCheckFlagList", "initOptions")
		if err != nil {
			return out, "", err
		}
		changeFlags, err := c17FlagList(fo, "getWarnCheckList", "warnParam")
		if err != nil {
			return out, "", err
		}
		initTags, err := c17BoolTags(fi, "InitializationOptions")
		if err != nil {
			return out, "", err
		}
		warnTags, err := c17BoolTags(fo, "WarnParams")
		if err != nil {
			return out, "", err
		}
		// IsSpecialCheck: errTypeList := []CheckErrorType{...}
		sp := c17FindFunc(fg, "IsSpecialCheck")
		if sp == nil {
			return out, "", fmt.Errorf("IsSpecialCheck not found")
		}
		var special []string
		nl := 0
		ast.Inspect(sp.Body, func(n ast.Node) bool {
			cl, ok := n.(*ast.CompositeLit)
			if !ok {
				return true
			}
			at, ok := cl.Type.(*ast.ArrayType)
			if !ok {
				return true
			}
			if id, ok := at.Elt.(*ast.Ident); !ok || id.Name != "CheckErrorType" {
				return true
			}
			nl++
			for _, e := range cl.Elts {
				if id, ok := e.(*ast.Ident); ok {
					special = append(special, id.Name)
				} else {
					special = append(special, "?")
				}
			}
			return true
		})
		if nl != 1 || len(special) == 0 {
			return out, "", fmt.Errorf("IsSpecialCheck: expected one []CheckErrorType literal, found %d", nl)
		}
		for _, s := range special {
			if s == "?" {
				return out, "", fmt.Errorf("IsSpecialCheck: errTypeList element is not a constant name")
			}
		}
		// handleNotJSONCheckFlag: every `for i := A; i < B; i++`
		hf := c17FindFunc(fg, "handleNotJSONCheckFlag")
		if hf == nil {
			return out, "", fmt.Errorf("handleNotJSONCheckFlag not found")
		}
		var loops [][2]string
		bad := ""
		ast.Inspect(hf.Body, func(n ast.Node) bool {
			fs, ok := n.(*ast.ForStmt)
			if !ok {
				return true
			}
			as, ok1 := fs.Init.(*ast.AssignStmt)
			be, ok2 := fs.Cond.(*ast.BinaryExpr)
			_, ok3 := fs.Post.(*ast.IncDecStmt)
			if !ok1 || !ok2 || !ok3 || len(as.Rhs) != 1 || be.Op != token.LSS {
				bad = "for loop of unexpected shape"
				return true
			}
			a, oka := as.Rhs[0].(*ast.Ident)
			b, okb := be.Y.(*ast.Ident)
			if !oka || !okb {
				bad = "for loop bounds are not constant names"
				return true
			}
			loops = append(loops, [2]string{a.Name, b.Name})
			return true
		})
		if bad != "" || len(loops) != 2 {
			return out, "", fmt.Errorf("handleNotJSONCheckFlag: %s (%d counting loops, expected 2)", bad, len(loops))
		}
		// regexp.MustCompile(<not a literal>) anywhere in global_conf.go; regexp.Compile / MustCompile must occur at all
		mustUser, compileCalls := 0, 0
		ast.Inspect(fg, func(n ast.Node) bool {
			ce, ok := n.(*ast.CallExpr)
			if !ok {
				return true
			}
			se, ok := ce.Fun.(*ast.SelectorExpr)
			if !ok {
				return true
			}
			if id, ok := se.X.(*ast.Ident); !ok || id.Name != "regexp" {
				return true
			}
			if se.Sel.Name == "MustCompile" || se.Sel.Name == "Compile" {
				compileCalls++
			}
			if se.Sel.Name == "MustCompile" && len(ce.Args) == 1 {
				if lit, ok := ce.Args[0].(*ast.BasicLit); !ok || lit.Kind != token.STRING {
					mustUser++
				}
			}
			return true
		})
		if compileCalls == 0 {
			return out, "", fmt.Errorf("global_conf.go: no regexp.Compile / regexp.MustCompile call at all: shape not recognised")
		}
		// does IntialGlobalVar (run once at start-up, before any settings are seen) allocate g.IgnoreVarMap?
		varMapAtInit := false
		ig := c17FindFunc(fg, "IntialGlobalVar")
		if ig == nil {
			return out, "", fmt.Errorf("global_conf.go: func IntialGlobalVar not found")
		}
		ast.Inspect(ig, func(n ast.Node) bool {
			as, ok := n.(*ast.AssignStmt)
			if !ok || len(as.Lhs) != 1 || len(as.Rhs) != 1 {
				return true
			}
			if se, ok := as.Lhs[0].(*ast.SelectorExpr); ok && se.Sel.Name == "IgnoreVarMap" {
				if _, ok := as.Rhs[0].(*ast.CompositeLit); ok {
					varMapAtInit = true
				}
			}
			return true
		})
		clientOpens := c17ClientOpens(hf)
		rc := c17FindFunc(fg, "ReadConfig")
		if rc == nil {
			return out, "", fmt.Errorf("global_conf.go: func ReadConfig not found")
		}
		rulesMerged, err := c17RulesMerged(rc)
		if err != nil {
			return out, "", err
		}
		fdm, err := c17ParseGo(filepath.Join(ls, "check/common/dir_manager.go"))
		if err != nil {
			return out, "", err
		}
		type siteCalls struct {
			fn    string
			calls []string
		}
		var sites []siteCalls
		gaf := c17FindFunc(fdm, "getAllFile")
		if gaf == nil {
			return out, "", fmt.Errorf("dir_manager.go: func getAllFile not found")
		}
		sites = append(sites, siteCalls{"getAllFile", c17IgnoreSiteCalls(gaf)})
		icf := c17FindFunc(fg, "IsIgnoreCompleteFile")
		if icf == nil {
			return out, "", fmt.Errorf("global_conf.go: func IsIgnoreCompleteFile not found")
		}
		sites = append(sites, siteCalls{"IsIgnoreCompleteFile", c17IgnoreSiteCalls(icf)})
		if irf := c17FindFunc(fg, "isIgnoreRelFile"); irf != nil {
			sites = append(sites, siteCalls{"isIgnoreRelFile", c17IgnoreSiteCalls(irf)})
		}
		if len(sites[0].calls) == 0 || len(sites[1].calls) == 0 {
			return out, "", fmt.Errorf("getAllFile / IsIgnoreCompleteFile: no ignore-rule call found: shape not recognised")
		}
		cls := c17FindFunc(fo, "clearLspServer")
		if cls == nil {
			return out, "", fmt.Errorf("other_request.go: func clearLspServer not found")
		}
		settingsClear := c17SettingsClear(cls)
		if len(settingsClear) == 0 {
			return out, "", fmt.Errorf("clearLspServer: empty body: shape not recognised")
		}
		guards, opens, chokes, err := c17ScanAnalysis(filepath.Join(ls, "check/analysis"))
		if err != nil {
			return out, "", err
		}
		if len(guards) == 0 || len(opens) == 0 {
			return out, "", fmt.Errorf("check/analysis: no IsGlobalIgnoreErrType / OpenErrorTypeMap use found: shape not recognised")
		}
		// documentation of the switches
		nls, err := ioutil.ReadFile(filepath.Join(repo, "luahelper-vscode/package.nls.json"))
		if err != nil {
			return out, "", err
		}
		var nm map[string]string
		if err := json.Unmarshal(nls, &nm); err != nil {
			return out, "", err
		}
		type doc struct {
			name string
			ty   string
		}
		var docs []doc
		re := regexp.MustCompile(`^\[Warn Type:(\d+)\]`)
		for k, v := range nm {
			if !strings.HasPrefix(k, "luahelper.Warn.") {
				continue
			}
			name := strings.TrimPrefix(k, "luahelper.Warn.")
			if name == "AllEnable" {
				docs = append(docs, doc{name, "0"})
				continue
			}
			m := re.FindStringSubmatch(v)
			if m == nil {
				return out, "", fmt.Errorf("package.nls.json: %s has no [Warn Type:n] prefix", k)
			}
			docs = append(docs, doc{name, m[1]})
		}
		sort.Slice(docs, func(i, j int) bool { return docs[i].name < docs[j].name })
		if len(docs) == 0 {
			return out, "", fmt.Errorf("package.nls.json: no luahelper.Warn.* entries")
		}

		var b strings.Builder
		b.WriteString("(* GENERATED by /verif/translator (gen_flags.go) from initialize.go, other_request.go, global_conf.go,\n   luahelper-vscode/package.nls.json - do not edit *)\n")
		b.WriteString("From Coq Require Import List NArith String.\nImport ListNotations.\nLocal Open Scope string_scope.\n\n")
		fmt.Fprintf(&b, "Definition init_flags : list string :=\n  %s.\n\n", c17CoqStrings(initFlags))
		fmt.Fprintf(&b, "Definition change_flags : list string :=\n  %s.\n\n", c17CoqStrings(changeFlags))
		pairs := func(l [][2]string) string {
			q := make([]string, len(l))
			for i, p := range l {
				q[i] = fmt.Sprintf("(\"%s\", \"%s\")", p[0], p[1])
			}
			return "[" + strings.Join(q, ";\n   ") + "]"
		}
		fmt.Fprintf(&b, "Definition init_json_tags : list (string * string) :=\n  %s.\n\n", pairs(initTags))
		fmt.Fprintf(&b, "Definition warn_json_tags : list (string * string) :=\n  %s.\n\n", pairs(warnTags))
		fmt.Fprintf(&b, "Definition special_types : list string :=\n  %s.\n\n", c17CoqStrings(special))
		fmt.Fprintf(&b, "Definition flag_loops : list (string * string) :=\n  %s.\n\n", pairs(loops))
		fmt.Fprintf(&b, "(* %d call(s) of regexp.MustCompile on non-literal text in global_conf.go *)\nDefinition must_compile_user_text : bool := %v.\n\n", mustUser, mustUser > 0)
		fmt.Fprintf(&b, "(* IntialGlobalVar allocates IgnoreVarMap (before any settings are read) *)\nDefinition var_map_allocated_at_init : bool := %v.\n\n", varMapAtInit)
		fmt.Fprintf(&b, "(* handleNotJSONCheckFlag writes OpenErrorTypeMap[i] = true for a switch that is on *)\nDefinition client_opens_types : bool := %v.\n\n", clientOpens)
		fmt.Fprintf(&b, "(* ReadConfig looks an IgnoreFileErrTypes name up before it assigns its type set *)\nDefinition file_rules_merged : bool := %v.\n\n", rulesMerged)
		gq := make([]string, len(guards))
		for i, g := range guards {
			gq[i] = fmt.Sprintf("(\"%s\", (\"%s\", %s))", g.fn, g.kind, c17CoqStrings(g.types))
		}
		fmt.Fprintf(&b, "Definition ignore_guards : list (string * (string * list string)) :=\n  [%s].\n\n", strings.Join(gq, ";\n   "))
		fmt.Fprintf(&b, "Definition open_lookups : list (string * string) :=\n  %s.\n\n", pairs(opens))
		cq := make([]string, len(chokes))
		for i, c := range chokes {
			cq[i] = fmt.Sprintf("(\"%s\", (\"%s\", \"%s\"))", c[0], c[1], c[2])
		}
		fmt.Fprintf(&b, "Definition analysis_choke_calls : list (string * (string * string)) :=\n  [%s].\n\n", strings.Join(cq, ";\n   "))
		sq := make([]string, len(sites))
		for i, st := range sites {
			sq[i] = fmt.Sprintf("(\"%s\", %s)", st.fn, c17CoqStrings(st.calls))
		}
		fmt.Fprintf(&b, "(* which ignore-for-analysis helper the directory walk and the per-file predicate call *)\nDefinition ignore_site_calls : list (string * list string) :=\n  [%s].\n\n", strings.Join(sq, ";\n   "))
		fmt.Fprintf(&b, "(* the statements of clearLspServer (what a settings change clears before it analyses the workspace again) *)\nDefinition settings_clear_steps : list string :=\n  %s.\n\n", c17CoqStrings(settingsClear))
		dq := make([]string, len(docs))
		for i, d := range docs {
			dq[i] = fmt.Sprintf("(\"%s\", %s%%N)", d.name, d.ty)
		}
		fmt.Fprintf(&b, "Definition documented_types : list (string * N) :=\n  [%s].\n", strings.Join(dq, ";\n   "))
		return out, b.String(), nil
	})
}
