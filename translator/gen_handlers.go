// gen_handlers.go - C10: regenerates coq/Generated/GenHandlers.v from the Go sources.
//
// For every entry of the jrpc2 handler map in langserver/lsp_server.go (CreateServer) it finds the handler method and
// linearises, in source order, what the method does to the shared state of the server:
//
//	Acc <resource> <Rd|Wr>   an access to one of the shared resources (see resource list below)
//	Lock / Unlock            l.requestMutex.Lock() / (deferred or explicit) l.requestMutex.Unlock()
//	Spawn k                  `go ...` starting background goroutine number k (its own action list)
//
// Methods of *LspServer and package-level functions of package langserver are inlined recursively; calls into other
// packages go through the hand-written CALLEE-EFFECT TABLE below (trusted, DESIGN.md 8). A call on the project /
// document cache / global configuration that is not in the table, an unknown receiver field, a Lock() that is not a
// top-level statement of its function, or an explicit Unlock() with a return before it makes the generator FAIL
// (the check then reports the tie as broken) - nothing is guessed.
//
// go/parser + go/ast only (no type information): the class of a local variable is tracked from its defining
// assignment (`project := l.getAllProject()`, `fileCache := l.getFileCache()`, `dirManager := common.GConfig.GetDirManager()`).
package main

import (
	"fmt"
	"go/ast"
	"go/parser"
	"go/token"
	"os"
	"path/filepath"
	"sort"
	"strconv"
	"strings"
)

func init() { registerGen("handlers", genHandlers) }

// ---- resources (constructors of Dispatch.res)
const (
	rDocCache   = "DocCache"      // LspServer.fileCache.m            (open documents)
	rSavedDiag  = "SavedDiag"     // LspServer.fileErrorMap
	rLiveDiag   = "LiveDiag"      // LspServer.fileChangeErrorMap
	rProjectPtr = "ProjectPtr"    // LspServer.project (the pointer)
	rAnalysis   = "Analysis"      // contents of check.AllProject (file maps, first/second/third pass results, LRU)
	rCompCache  = "CompleteCache" // AllProject.completeCache
	rConfig     = "Config"        // common.GConfig incl. DirManager, pathpre globals
	rColorTime  = "ColorTime"     // LspServer.colorTime
	rConfFlag   = "ConfFlag"      // LspServer.changeConfFlag
	rReport     = "Report"        // LspServer.enableReport / onlineReport (telemetry)
	rOnlineNum  = "OnlineNum"     // package variable onlinePeopleNum (telemetry reply)
	rPathPrefix = "PathPrefix"    // pathpre.preFixStr (URI prefix; written by initialize only)
)

type hAccess struct{ res, mode string } // mode "Rd" | "Wr"

type hEffect struct {
	acc   []hAccess
	class string // class of the returned value ("" = untracked)
}

func rd(r ...string) []hAccess {
	var o []hAccess
	for _, x := range r {
		o = append(o, hAccess{x, "Rd"})
	}
	return o
}
func wr(r ...string) []hAccess {
	var o []hAccess
	for _, x := range r {
		o = append(o, hAccess{x, "Wr"})
	}
	return o
}
func cat(a ...[]hAccess) []hAccess {
	var o []hAccess
	for _, x := range a {
		o = append(o, x...)
	}
	return o
}

// ---- receiver fields of LspServer: resource, and class of the value read
var hFields = map[string]hEffect{
	"server":             {nil, ""},         // set once in CreateServer before Start; jrpc2.Server is internally synchronised
	"fileCache":          {nil, "DocCache"}, // pointer never reassigned; the map inside is the resource
	"project":            {rd(rProjectPtr), "Project"},
	"fileErrorMap":       {rd(rSavedDiag), ""},
	"fileChangeErrorMap": {rd(rLiveDiag), ""},
	"fileChangeCleanMap": {rd(rLiveDiag), ""}, // added by fix: 1342ea4 (C08 unhidden): same resource as the live map
	"colorTime":          {rd(rColorTime), ""},
	"changeConfFlag":     {rd(rConfFlag), ""},
	"enableReport":       {rd(rReport), ""},
	"onlineReport":       {rd(rReport), ""},
}

// ---- package-level variables of package langserver
var hGlobals = map[string]hEffect{
	"onlinePeopleNum": {rd(rOnlineNum), ""}, // written by the UDP receive goroutine, read by luahelper/getOnlineReq
	"clientVerStr":    {nil, ""},            // never assigned after initialisation
}

// ---- CALLEE-EFFECT TABLE (trusted): class.method -> accesses (+ class of the result)
var hQuery = cat(rd(rAnalysis), rd(rConfig))
var hComplete = cat(wr(rCompCache), rd(rAnalysis), rd(rConfig))
var hCallee = map[string]hEffect{
	// check.AllProject
	"Project.IsNeedHandle":              {rd(rConfig), ""},
	"Project.IsInAllFilesMap":           {rd(rAnalysis), ""},
	"Project.GetAllFileNumber":          {rd(rAnalysis), ""},
	"Project.GetAllFilesMap":            {rd(rAnalysis), ""},
	"Project.GetAllFileErrorInfo":       {cat(rd(rAnalysis), rd(rConfig)), ""},
	"Project.RemoveCacheContent":        {wr(rAnalysis), ""},
	"Project.RemoveFile":                {wr(rAnalysis), ""},
	"Project.HandleFileEventChanges":    {cat(wr(rConfig), wr(rAnalysis)), ""},
	"Project.HandleFileChangeAnalysis":  {cat(rd(rConfig), wr(rAnalysis)), ""},
	"Project.HandleCheck":               {cat(wr(rConfig), wr(rAnalysis)), ""},
	"Project.ClearCompleteCache":        {wr(rCompCache), ""},
	"Project.GetCompleteCache":          {nil, "CompleteCache"},
	"Project.GetCompleteCacheIndexItem": {cat(rd(rCompCache), rd(rAnalysis), rd(rConfig)), ""},
	"Project.GetCompleteCacheItems":     {rd(rCompCache), ""},
	"Project.FindReferences":            {hQuery, ""},
	"Project.FindVarDefineInfo":         {hQuery, ""},
	"Project.FindOpenFileDefine":        {hQuery, ""},
	"Project.GetLspHoverVarStr":         {hQuery, ""},
	"Project.AnnotateTypeHover":         {hQuery, ""},
	"Project.AnnotateTypeDefine":        {hQuery, ""},
	"Project.SignaturehelpFunc":         {hQuery, ""},
	"Project.FindFileAllSymbol":         {hQuery, ""},
	"Project.FindWorkspaceAllSymbol":    {hQuery, ""},
	"Project.FindAllColorVar":           {hQuery, ""},
	"Project.CodeComplete":              {hComplete, ""},
	"Project.CodeCompleteFile":          {hComplete, ""},
	"Project.FuncCommentComplete":       {hComplete, ""},
	"Project.CompleteAnnotateArea":      {hComplete, ""},
	"Project.AnnotateTypeComplete":      {hComplete, ""},
	// common.CompleteCache
	"CompleteCache.GetBeforeHashtag":    {rd(rCompCache), ""},
	"CompleteCache.GetClearParamQuotes": {rd(rCompCache), ""},
	"CompleteCache.SetBeforeHashtag":    {wr(rCompCache), ""},
	// lspcommon.FileMapCache
	"DocCache.GetFileContent":      {rd(rDocCache), ""},
	"DocCache.SetFileContent":      {wr(rDocCache), ""},
	"DocCache.DelFileContent":      {wr(rDocCache), ""},
	"DocCache.ApplyContentChanges": {nil, ""}, // works on the byte slices passed in
	// common.GConfig (methods and fields; a field on the left of an assignment is a write)
	"GConfig.GetDirManager":                  {nil, "DirManager"},
	"GConfig.IsHandleAsLua":                  {rd(rConfig), ""},
	"GConfig.GetFrameReferFiles":             {rd(rConfig), ""},
	"GConfig.GetAllReferFileTypes":           {rd(rConfig), ""},
	"GConfig.IsHasProjectEntryFile":          {rd(rConfig), ""},
	"GConfig.HandleChangeCheckList":          {wr(rConfig), ""},
	"GConfig.InsertIngoreSystemAnnotateType": {wr(rConfig), ""},
	"GConfig.InsertIngoreSystemModule":       {wr(rConfig), ""},
	"GConfig.ReadConfig":                     {wr(rConfig), ""},
	"GConfig.SetAssocialList":                {wr(rConfig), ""},
	"GConfig.SetPreviewFieldsNum":            {wr(rConfig), ""},
	"GConfig.SetRequirePathSeparator":        {wr(rConfig), ""},
	"GConfig.CompSnippetMap":                 {rd(rConfig), ""},
	"GConfig.ProjectFiles":                   {rd(rConfig), ""},
	"GConfig.ReadJSONFlag":                   {rd(rConfig), ""},
	"GConfig.ReferenceDefineFlag":            {rd(rConfig), ""},
	"GConfig.ReferenceMaxNum":                {rd(rConfig), ""},
	// common.DirManager (part of GConfig)
	"DirManager.GetClientExtLuaPath": {rd(rConfig), ""},
	"DirManager.GetCompletePath":     {rd(rConfig), ""},
	"DirManager.GetDirFileList":      {rd(rConfig), ""},
	"DirManager.GetMainDir":          {rd(rConfig), ""},
	"DirManager.GetMainDirFileList":  {rd(rConfig), ""},
	"DirManager.GetPathFileList":     {rd(rConfig), ""},
	"DirManager.GetSubDirsFileList":  {rd(rConfig), ""},
	"DirManager.GetVsRootDir":        {rd(rConfig), ""},
	"DirManager.IsDirExistWorkspace": {rd(rConfig), ""},
	"DirManager.IsInDir":             {rd(rConfig), ""},
	"DirManager.RemovePathDirPre":    {rd(rConfig), ""},
	"DirManager.InitMainDir":         {wr(rConfig), ""},
	"DirManager.InitOtherDir":        {wr(rConfig), ""},
	"DirManager.PushOneSubDir":       {wr(rConfig), ""},
	"DirManager.RemoveOneSubDir":     {wr(rConfig), ""},
	"DirManager.SetClientPluginPath": {wr(rConfig), ""},
	"DirManager.SetVSRootDir":        {wr(rConfig), ""},
	// package-level functions of other packages that touch shared state or return a tracked object
	"pkg.check.CreateAllProject":          {cat(rd(rConfig)), "Project"},
	"pkg.pathpre.InitialRootURIAndPath":   {wr(rPathPrefix), ""},
	"pkg.pathpre.VscodeURIToString":       {rd(rPathPrefix), ""},
	"pkg.pathpre.StringToVscodeURI":       {rd(rPathPrefix), ""},
	"pkg.pathpre.GetRemovePreStr":         {nil, ""},
	"pkg.lspcommon.GetFileDocumentURI":    {rd(rPathPrefix), ""},
	"pkg.lspcommon.CreateFileMapCache":    {nil, "DocCache"},
	"pkg.check.GetVarStruct":              {nil, ""},
	"pkg.check.GetStrComment":             {nil, ""},
	"pkg.check.StrToDefineVarStruct":      {nil, ""},
	"pkg.common.GlobalConfigDefautInit":   {wr(rConfig), ""},
	"pkg.common.CompleteFilePathToPreStr": {nil, ""},
	"pkg.common.StrToReferType":           {nil, ""}, // pure string -> enum
}

// packages whose functions never touch the shared resources (stateless helpers, standard library).
// "ioutil": TextDocumentDidOpen compares the text it is sent with the file (ioutil.ReadFile): reading a file takes no lock
// and touches none of the shared resources of the table - the file system is not server state, and the handler's own
// accesses around the call (document cache, analysis, live / saved diagnostics) are recorded as before
var hPurePkgs = map[string]bool{
	"log": true, "lspcommon": true, "stringutil": true, "codingconv": true, "strbytesconv": true, "fmt": true,
	"strings": true, "time": true, "json": true, "net": true, "runtime": true, "user": true, "regexp": true,
	"unicode": true, "lsp": true, "protocol": true, "annotateast": true, "sort": true, "os": true, "context": true,
	"filefolder": true, "strconv": true, "bytes": true, "math": true, "utf8": true, "errors": true, "sync": true,
	"jrpc2": true, "handler": true, "lexer": true, "ioutil": true,
}

// packages that own shared state: every function called on them must be in the table
var hStatePkgs = map[string]bool{"check": true, "common": true, "pathpre": true}

var hBuiltins = map[string]bool{"len": true, "cap": true, "append": true, "make": true, "new": true, "delete": true,
	"panic": true, "recover": true, "copy": true, "print": true, "println": true, "close": true, "min": true, "max": true,
	"int": true, "int8": true, "int16": true, "int32": true, "int64": true, "uint": true, "uint8": true, "uint16": true,
	"uint32": true, "uint64": true, "float32": true, "float64": true, "string": true, "byte": true, "rune": true, "bool": true,
	"error": true}

// LSP kind where the Go signature does not tell (a handler returning only `error` is a notification)
var hKindOverride = map[string]string{"shutdown": "Request"}

type hAction struct {
	kind string // "Acc" "Lock" "Unlock" "Spawn"
	acc  hAccess
	bg   int
}

type hBackground struct {
	name string
	body []hAction
}

type hGen struct {
	fset    *token.FileSet
	methods map[string]*ast.FuncDecl // methods of *LspServer
	funcs   map[string]*ast.FuncDecl // package-level functions of package langserver
	bgs     []hBackground
	errs    []string
}

type hCtx struct {
	g        *hGen
	recv     string            // receiver variable name of the function being walked
	env      map[string]string // local variable -> class
	out      *[]hAction
	deferred [][]hAction // deferred calls, executed LIFO at the end of the function
	stack    []string    // inlining stack (recursion guard)
	fn       string
	retClass string
	topLevel map[ast.Stmt]bool
	body     *ast.BlockStmt
}

func (g *hGen) fail(format string, a ...interface{}) {
	g.errs = append(g.errs, fmt.Sprintf(format, a...))
}

func (c *hCtx) emit(a hAction) { *c.out = append(*c.out, a) }
func (c *hCtx) emitAcc(accs []hAccess, write bool) {
	for _, a := range accs {
		m := a.mode
		if write {
			m = "Wr"
		}
		c.emit(hAction{kind: "Acc", acc: hAccess{a.res, m}})
	}
}

func (c *hCtx) pos(n ast.Node) string {
	p := c.g.fset.Position(n.Pos())
	return fmt.Sprintf("%s:%d", filepath.Base(p.Filename), p.Line)
}

// isMutexCall recognises <recv>.requestMutex.Lock() / Unlock()
func (c *hCtx) isMutexCall(e ast.Expr) string {
	call, ok := e.(*ast.CallExpr)
	if !ok {
		return ""
	}
	sel, ok := call.Fun.(*ast.SelectorExpr)
	if !ok {
		return ""
	}
	inner, ok := sel.X.(*ast.SelectorExpr)
	if !ok || inner.Sel.Name != "requestMutex" {
		return ""
	}
	if id, ok := inner.X.(*ast.Ident); !ok || id.Name != c.recv {
		return ""
	}
	if sel.Sel.Name == "Lock" || sel.Sel.Name == "Unlock" {
		return sel.Sel.Name
	}
	c.g.fail("%s: unsupported use of requestMutex.%s", c.pos(e), sel.Sel.Name)
	return ""
}

func hasReturn(stmts []ast.Stmt) bool {
	found := false
	for _, s := range stmts {
		ast.Inspect(s, func(n ast.Node) bool {
			if _, ok := n.(*ast.FuncLit); ok {
				return false
			}
			if _, ok := n.(*ast.ReturnStmt); ok {
				found = true
			}
			return true
		})
	}
	return found
}

func (c *hCtx) walkBody(body *ast.BlockStmt) {
	c.body = body
	c.topLevel = map[ast.Stmt]bool{}
	for _, s := range body.List {
		c.topLevel[s] = true
	}
	lockIdx := -1
	for i, s := range body.List {
		// explicit Unlock: only straight-line code since the Lock
		if es, ok := s.(*ast.ExprStmt); ok && c.isMutexCall(es.X) == "Unlock" {
			if lockIdx < 0 || hasReturn(body.List[lockIdx:i]) {
				c.g.fail("%s: explicit requestMutex.Unlock() without a preceding top-level Lock() or with a return in between (lock may leak): shape not supported", c.pos(s))
			}
			lockIdx = -1
		}
		if es, ok := s.(*ast.ExprStmt); ok && c.isMutexCall(es.X) == "Lock" {
			lockIdx = i
		}
		c.walkStmt(s)
	}
	for i := len(c.deferred) - 1; i >= 0; i-- {
		for _, a := range c.deferred[i] {
			c.emit(a)
		}
	}
	c.deferred = nil
}

func (c *hCtx) walkStmts(l []ast.Stmt) {
	for _, s := range l {
		c.walkStmt(s)
	}
}

func (c *hCtx) walkStmt(s ast.Stmt) {
	switch s := s.(type) {
	case nil:
	case *ast.ExprStmt:
		if m := c.isMutexCall(s.X); m != "" {
			if !c.topLevel[s] {
				c.g.fail("%s: requestMutex.%s() is not a top-level statement of %s: shape not supported", c.pos(s), m, c.fn)
			}
			c.emit(hAction{kind: m})
			return
		}
		c.walkExpr(s.X, false)
	case *ast.AssignStmt:
		classes := []string{}
		for _, r := range s.Rhs {
			classes = append(classes, c.walkExpr(r, false))
		}
		for i, l := range s.Lhs {
			if id, ok := l.(*ast.Ident); ok {
				if _, isLocal := c.env[id.Name]; !isLocal && s.Tok != token.DEFINE {
					if ef, ok := hGlobals[id.Name]; ok {
						c.emitAcc(ef.acc, true) // assignment to a package-level variable
						continue
					}
				}
				// local variable (or named result): remember the class of what it holds
				if len(s.Lhs) == len(s.Rhs) {
					c.env[id.Name] = classes[i]
				} else if i == 0 && len(classes) == 1 {
					c.env[id.Name] = classes[0]
				} else {
					c.env[id.Name] = ""
				}
				continue
			}
			c.walkExpr(l, true)
		}
	case *ast.IncDecStmt:
		c.walkExpr(s.X, true)
	case *ast.DeclStmt:
		if gd, ok := s.Decl.(*ast.GenDecl); ok {
			for _, sp := range gd.Specs {
				if vs, ok := sp.(*ast.ValueSpec); ok {
					for i, v := range vs.Values {
						cl := c.walkExpr(v, false)
						if i < len(vs.Names) {
							c.env[vs.Names[i].Name] = cl
						}
					}
				}
			}
		}
	case *ast.DeferStmt:
		if m := c.isMutexCall(s.Call); m != "" {
			if m != "Unlock" || !c.topLevel[s] {
				c.g.fail("%s: unsupported deferred requestMutex.%s()", c.pos(s), m)
			}
			c.deferred = append(c.deferred, []hAction{{kind: "Unlock"}})
			return
		}
		var acts []hAction
		sub := *c
		sub.out = &acts
		sub.walkExpr(s.Call, false)
		c.deferred = append(c.deferred, acts)
	case *ast.GoStmt:
		var acts []hAction
		sub := *c
		sub.out = &acts
		sub.deferred = nil
		name := "go@" + c.pos(s)
		if sel, ok := s.Call.Fun.(*ast.SelectorExpr); ok {
			name = sel.Sel.Name
		} else if id, ok := s.Call.Fun.(*ast.Ident); ok {
			name = id.Name
		}
		sub.walkExpr(s.Call, false)
		if len(acts) > 0 {
			c.g.bgs = append(c.g.bgs, hBackground{name: name, body: acts})
			c.emit(hAction{kind: "Spawn", bg: len(c.g.bgs) - 1})
		}
	case *ast.ReturnStmt:
		for i, r := range s.Results {
			cl := c.walkExpr(r, false)
			if i == 0 {
				c.retClass = cl
			}
		}
	case *ast.BlockStmt:
		c.walkStmts(s.List)
	case *ast.IfStmt:
		c.walkStmt(s.Init)
		c.walkExpr(s.Cond, false)
		c.walkStmt(s.Body)
		c.walkStmt(s.Else)
	case *ast.ForStmt:
		c.walkStmt(s.Init)
		if s.Cond != nil {
			c.walkExpr(s.Cond, false)
		}
		c.walkStmt(s.Body)
		c.walkStmt(s.Post)
	case *ast.RangeStmt:
		c.walkExpr(s.X, false)
		for _, kv := range []ast.Expr{s.Key, s.Value} {
			if id, ok := kv.(*ast.Ident); ok {
				c.env[id.Name] = ""
			}
		}
		c.walkStmt(s.Body)
	case *ast.SwitchStmt:
		c.walkStmt(s.Init)
		if s.Tag != nil {
			c.walkExpr(s.Tag, false)
		}
		c.walkStmt(s.Body)
	case *ast.TypeSwitchStmt:
		c.walkStmt(s.Init)
		c.walkStmt(s.Assign)
		c.walkStmt(s.Body)
	case *ast.CaseClause:
		for _, e := range s.List {
			c.walkExpr(e, false)
		}
		c.walkStmts(s.Body)
	case *ast.SelectStmt:
		c.walkStmt(s.Body)
	case *ast.CommClause:
		c.walkStmt(s.Comm)
		c.walkStmts(s.Body)
	case *ast.SendStmt:
		c.walkExpr(s.Chan, false)
		c.walkExpr(s.Value, false)
	case *ast.LabeledStmt:
		c.walkStmt(s.Stmt)
	case *ast.BranchStmt, *ast.EmptyStmt:
	default:
		c.g.fail("%s: unsupported statement %T", c.pos(s), s)
	}
}

// inline walks the body of a method of *LspServer / a package-level function; returns the class of its result
func (c *hCtx) inline(fd *ast.FuncDecl, what string) string {
	for _, s := range c.stack {
		if s == what {
			return "" // recursion: the effects are already being collected
		}
	}
	if fd.Body == nil {
		return ""
	}
	sub := &hCtx{g: c.g, env: map[string]string{}, out: c.out, stack: append(append([]string{}, c.stack...), what), fn: what}
	if fd.Recv != nil && len(fd.Recv.List) == 1 && len(fd.Recv.List[0].Names) == 1 {
		sub.recv = fd.Recv.List[0].Names[0].Name
	}
	for _, fl := range []*ast.FieldList{fd.Type.Params, fd.Type.Results} {
		if fl == nil {
			continue
		}
		for _, f := range fl.List {
			for _, nm := range f.Names {
				sub.env[nm.Name] = "" // parameters and named results: untracked locals
			}
		}
	}
	sub.walkBody(fd.Body)
	return sub.retClass
}

func (c *hCtx) lookup(key string, n ast.Node, write bool) (hEffect, bool) {
	ef, ok := hCallee[key]
	if !ok {
		c.g.fail("%s: no callee-effect entry for %s (in %s): extend the table in translator/gen_handlers.go", c.pos(n), key, c.fn)
		return hEffect{}, false
	}
	c.emitAcc(ef.acc, write)
	return ef, true
}

// walkExpr emits the accesses of evaluating e (write = e is assigned to / deleted from) and returns the class of its value.
func (c *hCtx) walkExpr(e ast.Expr, write bool) string {
	switch e := e.(type) {
	case nil:
		return ""
	case *ast.Ident:
		if cl, isLocal := c.env[e.Name]; isLocal {
			return cl
		}
		if ef, ok := hGlobals[e.Name]; ok {
			c.emitAcc(ef.acc, write)
			return ef.class
		}
		return ""
	case *ast.BasicLit:
		return ""
	case *ast.ParenExpr:
		return c.walkExpr(e.X, write)
	case *ast.StarExpr:
		return c.walkExpr(e.X, write)
	case *ast.UnaryExpr:
		return c.walkExpr(e.X, false)
	case *ast.BinaryExpr:
		c.walkExpr(e.X, false)
		c.walkExpr(e.Y, false)
		return ""
	case *ast.IndexExpr:
		c.walkExpr(e.Index, false)
		c.walkExpr(e.X, write)
		return ""
	case *ast.SliceExpr:
		c.walkExpr(e.X, write)
		c.walkExpr(e.Low, false)
		c.walkExpr(e.High, false)
		c.walkExpr(e.Max, false)
		return ""
	case *ast.TypeAssertExpr:
		return c.walkExpr(e.X, false)
	case *ast.KeyValueExpr:
		c.walkExpr(e.Value, false)
		return ""
	case *ast.CompositeLit:
		for _, el := range e.Elts {
			c.walkExpr(el, false)
		}
		return ""
	case *ast.FuncLit:
		// a closure: its body is linearised where it is written (over-approximation of when it runs)
		sub := *c
		sub.deferred = nil
		sub.topLevel = map[ast.Stmt]bool{}
		sub.walkStmts(e.Body.List)
		for i := len(sub.deferred) - 1; i >= 0; i-- {
			for _, a := range sub.deferred[i] {
				c.emit(a)
			}
		}
		return ""
	case *ast.ArrayType, *ast.MapType, *ast.ChanType, *ast.FuncType, *ast.InterfaceType, *ast.StructType, *ast.Ellipsis:
		return ""
	case *ast.SelectorExpr:
		return c.walkSelector(e, write)
	case *ast.CallExpr:
		return c.walkCall(e)
	}
	c.g.fail("%s: unsupported expression %T", c.pos(e), e)
	return ""
}

func (c *hCtx) walkSelector(e *ast.SelectorExpr, write bool) string {
	name := e.Sel.Name
	if id, ok := e.X.(*ast.Ident); ok {
		if id.Name == c.recv && c.recv != "" {
			if name == "requestMutex" {
				c.g.fail("%s: requestMutex used outside a Lock()/Unlock() statement", c.pos(e))
				return ""
			}
			ef, ok := hFields[name]
			if !ok {
				c.g.fail("%s: unknown field %s.%s of LspServer: classify it in hFields (translator/gen_handlers.go)", c.pos(e), id.Name, name)
				return ""
			}
			c.emitAcc(ef.acc, write)
			return ef.class
		}
		if id.Name == "common" && name == "GConfig" {
			return "GConfig"
		}
		if cl := c.env[id.Name]; cl != "" {
			// field of a tracked object (only GConfig has exported fields used here)
			ef, _ := c.lookup(cl+"."+name, e, write)
			return ef.class
		}
		if _, isLocal := c.env[id.Name]; isLocal {
			return ""
		}
		return "" // pkg.Const / pkg.Type / field of an untracked local
	}
	cl := c.walkExpr(e.X, write)
	if cl == "GConfig" || cl == "DirManager" || cl == "Project" || cl == "CompleteCache" || cl == "DocCache" {
		ef, _ := c.lookup(cl+"."+name, e, write)
		return ef.class
	}
	return ""
}

func (c *hCtx) walkCall(call *ast.CallExpr) string {
	if sel, ok := call.Fun.(*ast.SelectorExpr); ok {
		if id, ok := sel.X.(*ast.Ident); ok && id.Name == "atomic" && id.Obj == nil {
			return "" // sync/atomic access: synchronised, not a data race
		}
	}
	for _, a := range call.Args {
		c.walkExpr(a, false)
	}
	switch f := call.Fun.(type) {
	case *ast.Ident:
		if f.Name == "delete" && len(call.Args) > 0 {
			c.walkExpr(call.Args[0], true)
			return ""
		}
		if fd, ok := c.g.funcs[f.Name]; ok {
			return c.inline(fd, f.Name)
		}
		if hBuiltins[f.Name] {
			return ""
		}
		if _, isLocal := c.env[f.Name]; isLocal {
			return "" // call of a local closure (its body was linearised where it was defined)
		}
		// conversion to a package-level type of langserver (e.g. serverState(x)), or a parameter of function type
		return ""
	case *ast.ParenExpr, *ast.ArrayType, *ast.MapType, *ast.InterfaceType:
		return "" // conversion
	case *ast.FuncLit:
		return c.walkExpr(f, false)
	case *ast.SelectorExpr:
		name := f.Sel.Name
		if id, ok := f.X.(*ast.Ident); ok {
			if id.Name == c.recv && c.recv != "" {
				fd, ok := c.g.methods[name]
				if !ok {
					c.g.fail("%s: call of unknown method %s.%s", c.pos(call), id.Name, name)
					return ""
				}
				return c.inline(fd, "(*LspServer)."+name)
			}
			if cl, isLocal := c.env[id.Name]; isLocal {
				if cl == "" {
					return "" // method of an untracked local value (request parameters, results, ...)
				}
				ef, _ := c.lookup(cl+"."+name, call, false)
				return ef.class
			}
			// package-qualified call
			if ef, ok := hCallee["pkg."+id.Name+"."+name]; ok {
				c.emitAcc(ef.acc, false)
				return ef.class
			}
			if hStatePkgs[id.Name] {
				c.g.fail("%s: no callee-effect entry for pkg.%s.%s (in %s)", c.pos(call), id.Name, name, c.fn)
				return ""
			}
			if hPurePkgs[id.Name] {
				return ""
			}
			if id.Obj == nil {
				c.g.fail("%s: call into unclassified package or object %s.%s (in %s)", c.pos(call), id.Name, name, c.fn)
			}
			return ""
		}
		// receiver is itself an expression: l.project.X(), common.GConfig.X(), project.GetCompleteCache().X(), l.server.Notify()
		cl := c.walkExpr(f.X, false)
		if cl != "" {
			ef, _ := c.lookup(cl+"."+name, call, false)
			return ef.class
		}
		return ""
	}
	return ""
}

// ---------------------------------------------------------------------------------------------------------

func hNormalise(body []hAction) []hAction {
	// drop duplicate accesses inside one segment (between lock operations / spawns); order of first occurrence is kept
	var out []hAction
	seen := map[hAccess]bool{}
	for _, a := range body {
		if a.kind != "Acc" {
			seen = map[hAccess]bool{}
			out = append(out, a)
			continue
		}
		if seen[a.acc] {
			continue
		}
		seen[a.acc] = true
		out = append(out, a)
	}
	return out
}

func hCoqBody(body []hAction) string {
	if len(body) == 0 {
		return "[]"
	}
	parts := []string{}
	for _, a := range body {
		switch a.kind {
		case "Acc":
			parts = append(parts, fmt.Sprintf("Acc %s %s", a.acc.res, a.acc.mode))
		case "Spawn":
			parts = append(parts, fmt.Sprintf("Spawn %d", a.bg))
		default:
			parts = append(parts, a.kind)
		}
	}
	return "[" + strings.Join(parts, "; ") + "]"
}

func genHandlers(repo string) (string, string, error) {
	const out = "GenHandlers.v"
	dir := filepath.Join(repo, "luahelper-lsp", "langserver")
	fset := token.NewFileSet()
	pkgs, err := parser.ParseDir(fset, dir, func(fi os.FileInfo) bool {
		n := fi.Name()
		return !strings.HasSuffix(n, "_test.go") && !strings.HasPrefix(n, "verif_hooks") && n != "lsptest.go"
	}, 0)
	if err != nil {
		return out, "", err
	}
	pkg, ok := pkgs["langserver"]
	if !ok {
		return out, "", fmt.Errorf("package langserver not found in %s", dir)
	}
	g := &hGen{fset: fset, methods: map[string]*ast.FuncDecl{}, funcs: map[string]*ast.FuncDecl{}}
	var createServer *ast.FuncDecl
	fileNames := []string{}
	for fn := range pkg.Files {
		fileNames = append(fileNames, fn)
	}
	sort.Strings(fileNames)
	for _, fn := range fileNames {
		for _, d := range pkg.Files[fn].Decls {
			fd, ok := d.(*ast.FuncDecl)
			if !ok {
				continue
			}
			if fd.Recv == nil {
				g.funcs[fd.Name.Name] = fd
				if fd.Name.Name == "CreateServer" {
					createServer = fd
				}
				continue
			}
			if len(fd.Recv.List) == 1 {
				if st, ok := fd.Recv.List[0].Type.(*ast.StarExpr); ok {
					if id, ok := st.X.(*ast.Ident); ok && id.Name == "LspServer" {
						g.methods[fd.Name.Name] = fd
					}
				}
			}
		}
	}
	if createServer == nil {
		return out, "", fmt.Errorf("func CreateServer not found")
	}
	for _, fn := range fileNames {
		for _, d := range pkg.Files[fn].Decls {
			if gd, ok := d.(*ast.GenDecl); ok && gd.Tok == token.VAR {
				for _, sp := range gd.Specs {
					for _, nm := range sp.(*ast.ValueSpec).Names {
						if _, ok := hGlobals[nm.Name]; !ok && nm.Name != "lspServer" && nm.Name != "_" {
							g.fail("package variable %s of package langserver is not classified in hGlobals", nm.Name)
						}
					}
				}
			}
		}
	}
	// the struct: every field must be classified
	for _, fn := range fileNames {
		ast.Inspect(pkg.Files[fn], func(n ast.Node) bool {
			ts, ok := n.(*ast.TypeSpec)
			if !ok || ts.Name.Name != "LspServer" {
				return true
			}
			if st, ok := ts.Type.(*ast.StructType); ok {
				for _, f := range st.Fields.List {
					for _, nm := range f.Names {
						switch nm.Name {
						case "requestMutex", "stateMu", "state":
						default:
							if _, ok := hFields[nm.Name]; !ok {
								g.fail("LspServer has a field %s that is not classified in hFields", nm.Name)
							}
						}
					}
				}
			}
			return false
		})
	}

	// jrpc2.NewServer(handler.Map{...}, &jrpc2.ServerOptions{... Concurrency: N ...})
	type entry struct{ method, fn string }
	var entries []entry
	concurrency := -1
	ast.Inspect(createServer, func(n ast.Node) bool {
		call, ok := n.(*ast.CallExpr)
		if !ok {
			return true
		}
		sel, ok := call.Fun.(*ast.SelectorExpr)
		if !ok || sel.Sel.Name != "NewServer" || len(call.Args) != 2 {
			return true
		}
		lit, ok := call.Args[0].(*ast.CompositeLit)
		if !ok {
			g.fail("jrpc2.NewServer: first argument is not a handler.Map literal")
			return false
		}
		for _, el := range lit.Elts {
			kv, ok := el.(*ast.KeyValueExpr)
			if !ok {
				g.fail("handler.Map: element is not key: value")
				continue
			}
			key, ok := kv.Key.(*ast.BasicLit)
			hc, ok2 := kv.Value.(*ast.CallExpr)
			if !ok || !ok2 || key.Kind != token.STRING || len(hc.Args) != 1 {
				g.fail("%s: handler.Map entry is not \"method\": handler.New(lspServer.Method)", fset.Position(kv.Pos()))
				continue
			}
			hs, ok := hc.Fun.(*ast.SelectorExpr)
			ms, ok2 := hc.Args[0].(*ast.SelectorExpr)
			if !ok || !ok2 || hs.Sel.Name != "New" {
				g.fail("%s: handler.Map entry is not \"method\": handler.New(lspServer.Method)", fset.Position(kv.Pos()))
				continue
			}
			m, _ := strconv.Unquote(key.Value)
			entries = append(entries, entry{m, ms.Sel.Name})
		}
		un, ok := call.Args[1].(*ast.UnaryExpr)
		if ok {
			if ol, ok := un.X.(*ast.CompositeLit); ok {
				for _, el := range ol.Elts {
					if kv, ok := el.(*ast.KeyValueExpr); ok {
						if k, ok := kv.Key.(*ast.Ident); ok && k.Name == "Concurrency" {
							if bl, ok := kv.Value.(*ast.BasicLit); ok && bl.Kind == token.INT {
								concurrency, _ = strconv.Atoi(bl.Value)
							}
						}
					}
				}
			}
		}
		return false
	})
	if len(entries) == 0 {
		g.fail("no handler.Map entries found in CreateServer")
	}
	if concurrency < 1 {
		g.fail("jrpc2.ServerOptions.Concurrency is not a positive integer literal (a value < 1 means runtime.NumCPU())")
	}

	type hrec struct {
		method, fn, kind string
		body             []hAction
	}
	var recs []hrec
	for _, en := range entries {
		fd, ok := g.methods[en.fn]
		if !ok {
			g.fail("handler method (*LspServer).%s for %q not found", en.fn, en.method)
			continue
		}
		kind := "Request"
		if fd.Type.Results != nil && fd.Type.Results.NumFields() == 1 {
			kind = "Notification"
		}
		if k, ok := hKindOverride[en.method]; ok {
			kind = k
		}
		var acts []hAction
		root := &hCtx{g: g, env: map[string]string{}, out: &acts}
		root.inline(fd, "(*LspServer)."+en.fn)
		recs = append(recs, hrec{en.method, en.fn, kind, hNormalise(acts)})
	}
	if len(g.errs) > 0 {
		sort.Strings(g.errs)
		uniq := []string{}
		for i, e := range g.errs {
			if i == 0 || e != g.errs[i-1] {
				uniq = append(uniq, e)
			}
		}
		return out, "", fmt.Errorf("%d problem(s): %s", len(uniq), strings.Join(uniq, " | "))
	}

	var sb strings.Builder
	sb.WriteString("(* GENERATED by /verif/translator/gen_handlers.go from luahelper-lsp/langserver/*.go - do not edit.\n")
	sb.WriteString("   One record per entry of the jrpc2 handler map (CreateServer); body = linearised shared-state actions. *)\n")
	sb.WriteString("From Coq Require Import String.\nFrom Coq Require Import List.\nFrom LH Require Import Model.Dispatch.\nImport ListNotations.\nLocal Open Scope string_scope.\n\n")
	fmt.Fprintf(&sb, "Definition concurrency : nat := %d.\n\n", concurrency)
	sb.WriteString("(* names are evaluated to character lists here (nm = list_ascii_of_string): extraction then needs no string type *)\nDefinition handlers : list handler := Eval vm_compute in [\n")
	for i, r := range recs {
		sep := ";"
		if i == len(recs)-1 {
			sep = ""
		}
		fmt.Fprintf(&sb, "  mkHandler (nm %q) (nm %q) %s\n    %s%s\n", r.method, r.fn, r.kind, hCoqBody(r.body), sep)
	}
	sb.WriteString("].\n\n")
	sb.WriteString("(* goroutines started with `go` from handler code; `Spawn k` refers to entry k *)\n")
	sb.WriteString("Definition background : list handler := Eval vm_compute in [\n")
	for i, b := range g.bgs {
		sep := ";"
		if i == len(g.bgs)-1 {
			sep = ""
		}
		fmt.Fprintf(&sb, "  mkHandler (nm %q) (nm %q) Background\n    %s%s\n", "$go/"+b.name, b.name, hCoqBody(hNormalise(b.body)), sep)
	}
	sb.WriteString("].\n")
	return out, sb.String(), nil
}
