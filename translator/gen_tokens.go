package main

// GenTokens.v: token kind constants (iota order), aliases, the keywords map, from lexer/token.go.

import (
	"fmt"
	"go/ast"
	"go/token"
	"sort"
	"strconv"
	"strings"
)

const tokenGo = "luahelper-lsp/langserver/check/compiler/lexer/token.go"

// tokenConsts returns the constant names in iota order and the alias table (alias -> target)
func tokenConsts(repo string) (names []string, alias map[string]string, kw map[string]string, err error) {
	_, f, e := parseFile(repo, tokenGo)
	if e != nil {
		return nil, nil, nil, e
	}
	alias = map[string]string{}
	kw = map[string]string{}
	for _, d := range f.Decls {
		gd, ok := d.(*ast.GenDecl)
		if !ok {
			continue
		}
		if gd.Tok == token.CONST {
			iotaBlock := false
			for i, sp := range gd.Specs {
				vs := sp.(*ast.ValueSpec)
				if i == 0 {
					if len(vs.Values) == 1 {
						if id, ok := vs.Values[0].(*ast.Ident); ok && id.Name == "iota" {
							if t, ok := vs.Type.(*ast.Ident); ok && t.Name == "TkKind" {
								iotaBlock = true
							}
						}
					}
					if !iotaBlock {
						break
					}
				}
				if len(vs.Values) == 0 || i == 0 {
					names = append(names, vs.Names[0].Name)
				} else if id, ok := vs.Values[0].(*ast.Ident); ok {
					alias[vs.Names[0].Name] = id.Name
				} else {
					return nil, nil, nil, fmt.Errorf("unexpected constant spec %s", vs.Names[0].Name)
				}
			}
		}
		if gd.Tok == token.VAR {
			for _, sp := range gd.Specs {
				vs := sp.(*ast.ValueSpec)
				if vs.Names[0].Name != "keywords" || len(vs.Values) != 1 {
					continue
				}
				cl, ok := vs.Values[0].(*ast.CompositeLit)
				if !ok {
					return nil, nil, nil, fmt.Errorf("keywords is not a composite literal")
				}
				for _, el := range cl.Elts {
					kv := el.(*ast.KeyValueExpr)
					k, e1 := strconv.Unquote(kv.Key.(*ast.BasicLit).Value)
					v, ok2 := selName(kv.Value)
					if e1 != nil || !ok2 {
						return nil, nil, nil, fmt.Errorf("keywords entry not understood")
					}
					kw[k] = v
				}
			}
		}
	}
	if len(names) == 0 || len(kw) == 0 {
		return nil, nil, nil, fmt.Errorf("token constants or keywords map not found (shape changed)")
	}
	return
}

func resolveKind(name string, alias map[string]string) string {
	for i := 0; i < 5; i++ {
		if t, ok := alias[name]; ok {
			name = t
		} else {
			break
		}
	}
	return name
}

func init() {
	registerGen("tokens", func(repo string) (string, string, error) {
		names, alias, kw, err := tokenConsts(repo)
		if err != nil {
			return "GenTokens.v", "", err
		}
		var b strings.Builder
		b.WriteString(header(tokenGo))
		b.WriteString("Definition gen_kind_codes : list (tkind * N) :=\n  [")
		for i, n := range names {
			if i > 0 {
				b.WriteString(";\n   ")
			}
			b.WriteString(fmt.Sprintf("(%s, %d%%N)", n, i))
		}
		b.WriteString("].\n\n")
		al := []string{}
		for a := range alias {
			al = append(al, a)
		}
		sort.Strings(al)
		b.WriteString("(* aliases: ")
		for _, a := range al {
			b.WriteString(a + " = " + alias[a] + "; ")
		}
		b.WriteString("*)\n\n")
		keys := []string{}
		for k := range kw {
			keys = append(keys, k)
		}
		sort.Strings(keys)
		b.WriteString("Definition gen_keywords : list (list N * tkind) :=\n  [")
		for i, k := range keys {
			if i > 0 {
				b.WriteString(";\n   ")
			}
			b.WriteString(fmt.Sprintf("(%s, %s)", coqBytes(k), resolveKind(kw[k], alias)))
		}
		b.WriteString("].\n")
		return "GenTokens.v", b.String(), nil
	})
}
